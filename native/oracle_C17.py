"""Property-level native oracle for C17 (replay of last resort): population dynamics from a rate matrix with zero column
sums: total population conserved at every stored time for real and integer-typed initial populations, refined steps,
and propagation matrices on sub-axes (including shifted ones with a different step) against the direct exponential."""
import sys
import numpy
import scipy.linalg
import quantarhei as qr
from quantarhei.qm.propagators.poppropagator import PopulationPropagator

bad = []
rng = numpy.random.default_rng(17)
for N in (2, 3, 4):
    K = rng.random((N, N)) * 0.02
    for j in range(N):
        K[j, j] = 0.0
        K[j, j] = -K[:, j].sum()
    t = qr.TimeAxis(0.0, 60, 2.0)
    for kind in ("real", "integer"):
        p0 = numpy.zeros(N) if kind == "real" else numpy.zeros(N, dtype=int)
        p0[0] = 1
        pp = PopulationPropagator(t, K)
        pops = pp.propagate(p0)
        tot = pops.sum(axis=1)
        if not numpy.allclose(tot, 1.0, atol=1e-10):
            bad.append("N=%d, %s initial populations: total population deviates from 1 by %.3g" % (N, kind, numpy.abs(tot - 1).max()))
        ref = numpy.array([scipy.linalg.expm(K * tt) @ p0.astype(float) for tt in t.data])
        if numpy.abs(pops - ref).max() > 1e-4:
            bad.append("N=%d, %s initial populations: populations differ from exp(Kt) p0 by %.3g" % (N, kind, numpy.abs(pops - ref).max()))
    # propagation matrices on sub-axes
    pp = PopulationPropagator(t, K)
    for (start, length, step) in ((0.0, 10, 2.0), (0.0, 5, 4.0), (8.0, 5, 4.0), (12.0, 4, 6.0)):
        sub = qr.TimeAxis(start, length, step)
        try:
            U = pp.get_PropagationMatrix(sub)
        except Exception as e:      # noqa
            continue
        for k, tt in enumerate(sub.data):
            want = scipy.linalg.expm(K * tt)
            if numpy.abs(U[:, :, k] - want).max() > 1e-8:
                bad.append("N=%d: propagation matrix on sub-axis (start %g, step %g) at t=%g differs from exp(Kt) by %.3g"
                           % (N, start, step, tt, numpy.abs(U[:, :, k] - want).max()))
                break

for b in bad[:10]:
    print("VIOLATED:", b)
print("C17 oracle: %d violations" % len(bad))
sys.exit(1 if bad else 0)
