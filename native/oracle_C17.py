"""Property-level native oracle for C17 (replay of last resort): population dynamics from a rate matrix with zero column
sums: total population conserved at every stored time for real and integer-typed initial populations, refined steps,
and propagation matrices on sub-axes (including shifted ones with a different step) against the direct exponential."""
import sys
import numpy
import scipy.linalg
import quantarhei as qr
from quantarhei.qm.propagators.poppropagator import PopulationPropagator

bad = []
rng = numpy.random.default_rng(17)
for N in (2, 3, 4):
    K = rng.random((N, N)) * 0.02
    for j in range(N):
        K[j, j] = 0.0
        K[j, j] = -K[:, j].sum()
    t = qr.TimeAxis(0.0, 60, 2.0)
    for kind in ("real", "integer"):
        p0 = numpy.zeros(N) if kind == "real" else numpy.zeros(N, dtype=int)
        p0[0] = 1
        pp = PopulationPropagator(t, K)
        pops = pp.propagate(p0)
        tot = pops.sum(axis=1)
        if not numpy.allclose(tot, 1.0, atol=1e-10):
            bad.append("N=%d, %s initial populations: total population deviates from 1 by %.3g" % (N, kind, numpy.abs(tot - 1).max()))
        ref = numpy.array([scipy.linalg.expm(K * tt) @ p0.astype(float) for tt in t.data])
        if numpy.abs(pops - ref).max() > 1e-4:
            bad.append("N=%d, %s initial populations: populations differ from exp(Kt) p0 by %.3g" % (N, kind, numpy.abs(pops - ref).max()))
    # propagation matrices on sub-axes
    pp = PopulationPropagator(t, K)
    for (start, length, step) in ((0.0, 10, 2.0), (0.0, 5, 4.0), (8.0, 5, 4.0), (12.0, 4, 6.0)):
        sub = qr.TimeAxis(start, length, step)
        try:
            U = pp.get_PropagationMatrix(sub)
        except Exception as e:      # noqa
            continue
        for k, tt in enumerate(sub.data):
            want = scipy.linalg.expm(K * tt)
            if numpy.abs(U[:, :, k] - want).max() > 1e-8:
                bad.append("N=%d: propagation matrix on sub-axis (start %g, step %g) at t=%g differs from exp(Kt) by %.3g"
                           % (N, start, step, tt, numpy.abs(U[:, :, k] - want).max()))
                break

# ---- non-reversible (cyclic) transfer: complex spectrum; long runs that reach the stationary state -------------------------------------
Kc = numpy.array([[-0.03, 0.0, 0.02], [0.03, -0.01, 0.0], [0.0, 0.01, -0.02]])
tc = qr.TimeAxis(0.0, 400, 0.5)
ppc = PopulationPropagator(tc, Kc)
for (start, length, step) in ((0.0, 20, 10.0), (5.0, 10, 15.0)):
    sub = qr.TimeAxis(start, length, step)
    try:
        U = ppc.get_PropagationMatrix(sub)
    except Exception as e:      # noqa
        bad.append("cyclic 3-state transfer: get_PropagationMatrix raised %s" % type(e).__name__)
        continue
    dev = max(numpy.abs(U[:, :, k] - scipy.linalg.expm(Kc * tt)).max() for k, tt in enumerate(sub.data))
    if dev > 1e-8:
        bad.append("cyclic 3-state transfer (complex spectrum): propagation matrix on sub-axis (start %g, step %g) differs from exp(Kt) by %.3g"
                   % (start, step, dev))
for (K_, dt_, n_) in ((numpy.array([[-0.03, 0.1], [0.03, -0.1]]), 0.1, 6000), (Kc, 0.5, 3000)):
    tl = qr.TimeAxis(0.0, n_, dt_)
    p0 = numpy.zeros(K_.shape[0])
    p0[0] = 1.0
    pops = PopulationPropagator(tl, K_).propagate(p0)
    x_ = numpy.abs(K_).sum(axis=0).max() * dt_
    bound_ = 2 * n_ * x_ ** 5 / 120.0 + 1e-10
    dev = max(numpy.abs(pops[k] - scipy.linalg.expm(K_ * tl.data[k]) @ p0).max() for k in range(0, n_, 97))
    if dev > bound_:
        bad.append("long run to the stationary state (%d steps of %g): populations differ from exp(Kt) p0 by %.3e, truncation bound %.3e"
                   % (n_, dt_, dev, bound_))

for b in bad[:10]:
    print("VIOLATED:", b)
print("C17 oracle: %d violations" % len(bad))
sys.exit(1 if bad else 0)
