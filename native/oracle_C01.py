"""Property-level native oracle for C01: builds small aggregates and checks, for every relaxation theory and option,
sum_a R[a,a,c,d] = 0 and conj(R[a,b,c,d]) = R[b,a,d,c] (every time index, site and exciton basis, before and after
secularisation) and the secular structure.  Used as the native replay of last resort for C01 obligations whose
counter-model lives on stand-in objects.  exit 1 + lines starting with VIOLATED when the real code breaks the property."""
import sys
import numpy
import quantarhei as qr
from quantarhei.qm import (RedfieldRelaxationTensor, TDRedfieldRelaxationTensor, FoersterRelaxationTensor,
                           TDFoersterRelaxationTensor, RedfieldFoersterRelaxationTensor, LindbladForm,
                           SystemBathInteraction, Operator)

bad = []


def check(R, label, tol=1e-9):
    R = numpy.asarray(R)
    tens = R if R.ndim == 5 else R[None]
    scale = max(1e-30, abs(tens).max())
    for t in range(tens.shape[0]):
        T = tens[t]
        tr = abs(numpy.einsum("aacd->cd", T)).max() / scale
        he = abs(numpy.conj(T) - numpy.transpose(T, (1, 0, 3, 2))).max() / scale
        if tr > tol:
            bad.append("%s: time index %d: |sum_a R[a,a,c,d]|/|R| = %.3e" % (label, t, tr))
            break
        if he > tol:
            bad.append("%s: time index %d: |conj R[a,b,c,d] - R[b,a,d,c]|/|R| = %.3e" % (label, t, he))
            break


def secular_ok(R0, R1, label):
    R0, R1 = numpy.asarray(R0), numpy.asarray(R1)
    N = R0.shape[-1]
    t0 = R0 if R0.ndim == 5 else R0[None]
    t1 = R1 if R1.ndim == 5 else R1[None]
    for a in range(N):
        for b in range(N):
            for c in range(N):
                for d in range(N):
                    keep = (a == b and c == d) or (a == c and b == d)
                    want = t0[:, a, b, c, d] if keep else 0 * t0[:, a, b, c, d]
                    if not numpy.allclose(t1[:, a, b, c, d], want, atol=1e-14):
                        bad.append("%s: secular element [%d,%d,%d,%d] wrong" % (label, a, b, c, d))
                        return


def system(n, temps=300.0, reorgs=None, cortimes=None):
    ta = qr.TimeAxis(0.0, 300, 1.0)
    en = [12000.0, 12150.0, 12300.0, 12100.0][:n]
    mols = []
    with qr.energy_units("1/cm"):
        for k in range(n):
            m = qr.Molecule([0.0, en[k]])
            cf = qr.CorrelationFunction(ta, dict(ftype="OverdampedBrownian", reorg=(reorgs or [30.0] * n)[k],
                                                 cortime=(cortimes or [60.0] * n)[k], T=temps, matsubara=20))
            m.set_transition_environment((0, 1), cf)
            mols.append(m)
        agg = qr.Aggregate(mols)
        J = {(0, 1): 80.0, (1, 2): 30.0, (0, 2): 10.0, (2, 3): 60.0, (0, 3): 5.0, (1, 3): 15.0}
        for (i, j), v in J.items():
            if j < n:
                agg.set_resonance_coupling(i, j, v)
    agg.build()
    return agg, agg.get_Hamiltonian(), agg.get_SystemBathInteraction(), ta


def run():
    for n in (2, 3):
        agg, ham, sbi, ta = system(n, reorgs=[30.0, 45.0, 20.0, 35.0][:n])
        tensors = []
        for as_ops in (False, True):
            for cut in (None, 120.0):
                tensors.append(("Redfield ops=%s cutoff=%s" % (as_ops, cut),
                                lambda a=as_ops, c=cut: RedfieldRelaxationTensor(ham, sbi, as_operators=a, cutoff_time=c)))
                tensors.append(("TDRedfield ops=%s cutoff=%s" % (as_ops, cut),
                                lambda a=as_ops, c=cut: TDRedfieldRelaxationTensor(ham, sbi, as_operators=a, cutoff_time=c)))
        for pd in (False, True):
            tensors.append(("Foerster pure_dephasing=%s" % pd, lambda p=pd: FoersterRelaxationTensor(ham, sbi, pure_dephasing=p)))
            if pd:
                tensors.append(("TDFoerster", lambda: TDFoersterRelaxationTensor(ham, sbi)))
        for label, mk in tensors:
            try:
                RT = mk()
            except Exception as e:      # noqa
                print("skipped %s (n=%d): constructor raised %s: %s" % (label, n, type(e).__name__, e))
                continue
            try:
                if getattr(RT, "as_operators", False):
                    RT.convert_2_tensor()
                R0 = numpy.array(RT.data)
                check(R0, "%s n=%d site basis" % (label, n))
                with qr.eigenbasis_of(ham):
                    check(numpy.array(RT.data), "%s n=%d exciton basis" % (label, n), tol=1e-8)
                RT.secularize()
                R1 = numpy.array(RT.data)
                check(R1, "%s n=%d secularized" % (label, n))
                secular_ok(R0, R1, "%s n=%d" % (label, n))
            except Exception as e:      # noqa
                print("skipped checks of %s (n=%d): %s: %s" % (label, n, type(e).__name__, e))
        # combined Redfield-Foerster with a coupling cut-off (in the exciton basis of the strongly coupled part)
        with qr.energy_units("1/cm"):
            cutoff = qr.Manager().convert_energy_2_internal_u(50.0)
        for cc in (None, cutoff):
            agg2, ham2, sbi2, _ = system(n, reorgs=[30.0, 45.0, 20.0, 35.0][:n])
            try:
                if cc is not None:
                    ham2.subtract_cutoff_coupling(cc)
                ham2.protect_basis()
                with qr.eigenbasis_of(ham2):
                    RT = RedfieldFoersterRelaxationTensor(ham2, sbi2, coupling_cutoff=cc)
                    check(numpy.array(RT.data), "RedfieldFoerster cutoff=%s n=%d" % (cc, n), tol=1e-8)
                ham2.unprotect_basis()
            except Exception as e:      # noqa
                print("skipped RedfieldFoerster cutoff=%s n=%d: %s: %s" % (cc, n, type(e).__name__, e))
        # Lindblad form
        N = ham.dim
        ops, rates = [], []
        for (i, j, r) in ((1, 2, 1.0 / 100.0), (2, 1, 1.0 / 300.0), (0, 1, 1.0 / 1000.0))[: (3 if N > 2 else 1)]:
            if i < N and j < N:
                K = numpy.zeros((N, N)); K[i, j] = 1.0
                ops.append(Operator(data=K)); rates.append(r)
        sbl = SystemBathInteraction(ops, rates=rates)
        for as_ops in (False, True):
            LF = LindbladForm(ham, sbl, as_operators=as_ops)
            if as_ops:
                LF.convert_2_tensor()
            check(numpy.array(LF.data), "Lindblad ops=%s n=%d" % (as_ops, n))


run()
# ---- the projection as implemented by the Secular mix-in -------------------------------------------------------------------------
try:
    from quantarhei.qm.liouvillespace.secular import Secular

    class _Sec(Secular):
        pass
    rng_ = numpy.random.default_rng(5)
    for shape in ((3, 3, 3, 3), (2, 3, 3, 3, 3)):
        o = _Sec.__new__(_Sec)
        o.as_operators = False
        o.data = rng_.standard_normal(shape) + 1j * rng_.standard_normal(shape)
        before = o.data.copy()
        o._secularize_data()
        secular_ok(before, o.data, "Secular._secularize_data on a %d-index array" % len(shape))
except Exception as e:      # noqa
    bad.append("Secular._secularize_data raised %s: %s" % (type(e).__name__, str(e)[:120]))
for b in bad:
    print("VIOLATED:", b)
print("C01 oracle: %d violations" % len(bad))
sys.exit(1 if bad else 0)
