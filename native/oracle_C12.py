"""Property-level native oracle for C12 (orientational prefactor): the closed form of the isotropic rank-four average is
checked against quadrature over Euler angles, and the prefactor computed by LabSetup.set_pulse_polarizations +
liouville_pathway.build + orientational_averaging is compared with it for random polarisation and dipole four-tuples,
common rotations and common scale factors."""
import sys
import types
import numpy
from quantarhei.spectroscopy.labsetup import LabSetup
from quantarhei.spectroscopy.diagramatics import liouville_pathway

bad = []
rng = numpy.random.default_rng(12)
M = numpy.array([[4.0, -1.0, -1.0], [-1.0, 4.0, -1.0], [-1.0, -1.0, 4.0]]) / 30.0


def pair(v):
    return numpy.array([numpy.dot(v[0], v[1]) * numpy.dot(v[2], v[3]), numpy.dot(v[0], v[2]) * numpy.dot(v[1], v[3]),
                        numpy.dot(v[0], v[3]) * numpy.dot(v[1], v[2])])


def closed_form(e, d):
    return pair(e) @ M @ pair(d)


def rot(axis, angle):
    axis = numpy.asarray(axis, float) / numpy.linalg.norm(axis)
    K = numpy.array([[0, -axis[2], axis[1]], [axis[2], 0, -axis[0]], [-axis[1], axis[0], 0]])
    return numpy.eye(3) + numpy.sin(angle) * K + (1 - numpy.cos(angle)) * K @ K


def quadrature(e, d, n=8):
    xb, wb = numpy.polynomial.legendre.leggauss(n)
    al = numpy.arange(n) * 2 * numpy.pi / n
    tot = 0.0
    for x, w in zip(xb, wb):
        Ry = rot([0, 1, 0], numpy.arccos(x))
        for a in al:
            for g in al:
                R = rot([0, 0, 1], a) @ Ry @ rot([0, 0, 1], g)
                tot += w * numpy.prod(numpy.sum(e * (d @ R.T), axis=1))
    return tot / (2.0 * n * n)


def prefactor(e, d, sides=(1, -1, 1, 1), rho=0.7, evf=0.3 - 0.2j):
    lab = LabSetup()
    lab.set_pulse_polarizations(pulse_polarizations=(e[0], e[1], e[2]), detection_polarization=e[3])
    agg = types.SimpleNamespace(rho0=numpy.array([[rho]]), HH=numpy.zeros((1, 1)))
    pw = liouville_pathway("R", 0, aggregate=agg, order=3, relax_order=0)
    pw.dmoments[:, :] = d
    pw.sides[:] = sides
    pw.evolfac = evf
    pw.build()
    pw.orientational_averaging(lab)
    return pw.pref / (numpy.prod(sides) * rho * evf)


for trial in range(40):
    e = rng.normal(size=(4, 3))
    d = rng.normal(size=(4, 3))
    if trial % 4 == 0:
        e = numpy.array([[1.0, 0, 0], [0, 1.0, 0], [1.0, 0, 0], [0, 1.0, 0]])       # XYXY
    if trial < 6 and abs(closed_form(e, d) - quadrature(e, d)) > 1e-10:
        bad.append("reference closed form disagrees with quadrature over orientations (oracle error)")
    try:
        p = prefactor(e, d)
    except Exception as ex:         # noqa
        bad.append("prefactor could not be computed: %s: %s" % (type(ex).__name__, ex))
        break
    want = closed_form(e, d)
    if abs(p - want) > 1e-10 * max(1.0, abs(want)):
        bad.append("prefactor %.6g differs from the isotropic average %.6g for e=%s d=%s" % (p.real, want, e.tolist(), d.tolist()))
    R = rot(rng.normal(size=3), rng.uniform(0, 6))
    if abs(prefactor(e, d @ R.T) - p) > 1e-10 * max(1.0, abs(p)):
        bad.append("prefactor changes under a common rotation of all dipoles")
    if abs(prefactor(e @ R.T, d) - p) > 1e-10 * max(1.0, abs(p)):
        bad.append("prefactor changes under a common rotation of all polarisations")
    if abs(prefactor(e, 1.7 * d) - 1.7 ** 4 * p) > 1e-9 * max(1.0, abs(p)):
        bad.append("prefactor does not scale with the fourth power of a common dipole factor")

# ---- whole calculated response (mock line shapes): additivity for uncoupled molecules, total = R + NR, rotation, scaling -------------
try:
    import copy
    import quantarhei as qr
    from quantarhei.spectroscopy.mocktwodcalculator import MockTwoDResponseCalculator
    from quantarhei.spectroscopy import X, Y

    def response(energies, dips, J, t2val, pol=(X, X, X, X)):
        with qr.energy_units("1/cm"):
            mols_ = []
            for e_, d_ in zip(energies, dips):
                m_ = qr.Molecule([0.0, e_])
                m_.set_transition_width((0, 1), 150.0)
                m_.set_dipole(0, 1, list(d_))
                mols_.append(m_)
            ag = qr.Aggregate(molecules=mols_)
            for (i_, j_), v_ in J.items():
                ag.set_resonance_coupling(i_, j_, v_)
        ag2 = copy.copy(ag)
        ag.build(mult=1)
        H_ = ag.get_Hamiltonian()
        t2a = qr.TimeAxis(0.0, 3, 10.0)
        with qr.eigenbasis_of(H_):
            K_ = qr.qm.ProjectionOperator(0, 0, dim=H_.dim)
        L_ = qr.qm.LindbladForm(H_, qr.qm.SystemBathInteraction(sys_operators=[K_], rates=[0.0]))
        eU = qr.EvolutionSuperOperator(time=t2a, ham=H_, relt=L_)
        eU.set_dense_dt(10)
        eU.calculate(show_progress=False)
        calc = MockTwoDResponseCalculator(qr.TimeAxis(0.0, 50, 10.0), t2a, qr.TimeAxis(0.0, 50, 10.0))
        with qr.energy_units("1/cm"):
            calc.bootstrap(rwa=12100.0)
        ag2.build(mult=2)
        ag2.diagonalize()
        lab = qr.LabSetup()
        lab.set_pulse_polarizations(pulse_polarizations=pol[:3], detection_polarization=pol[3])
        tw = calc.calculate_one_system(t2val, ag2, eU, lab)
        return {sg: numpy.array(tw.get_TwoDSpectrum(dtype=sg).data) for sg in (qr.signal_REPH, qr.signal_NONR, qr.signal_TOTL)}

    dA, dB = numpy.array([1.0, 0.8, 0.8]), numpy.array([0.8, -0.3, 0.5])
    for t2v in (0.0, 20.0):
        for pol in ((X, X, X, X), (X, X, Y, Y)):
            both = response([12000.0, 12300.0], [dA, dB], {(0, 1): 0.0}, t2v, pol)
            one = response([12000.0], [dA], {}, t2v, pol)
            two = response([12300.0], [dB], {}, t2v, pol)
            scale_ = max(1e-30, abs(both[qr.signal_TOTL]).max())
            for sg in both:
                dev = abs(both[sg] - one[sg] - two[sg]).max() / scale_
                if dev > 1e-9:
                    bad.append("uncoupled dimer, t2 = %g, polarisations %s: %s differs from the sum of the responses of the two "
                               "molecules (relative deviation %.3e)" % (t2v, "XXXX" if pol[2] is X else "XXYY", sg, dev))
            dev = abs(both[qr.signal_TOTL] - both[qr.signal_REPH] - both[qr.signal_NONR]).max() / scale_
            if dev > 1e-12:
                bad.append("uncoupled dimer, t2 = %g: total signal is not rephasing + non-rephasing (%.3e)" % (t2v, dev))
    base = response([12000.0, 12300.0], [dA, dB], {(0, 1): 90.0}, 10.0)
    Rm = rot(numpy.array([0.3, -0.5, 0.8]), 1.1)
    rotd = response([12000.0, 12300.0], [Rm @ dA, Rm @ dB], {(0, 1): 90.0}, 10.0)
    scl = response([12000.0, 12300.0], [1.3 * dA, 1.3 * dB], {(0, 1): 90.0}, 10.0)
    sc0 = abs(base[qr.signal_TOTL]).max()
    if abs(rotd[qr.signal_TOTL] - base[qr.signal_TOTL]).max() > 1e-9 * sc0:
        bad.append("coupled dimer: the response changes under a common rotation of all dipoles (%.3e)"
                   % (abs(rotd[qr.signal_TOTL] - base[qr.signal_TOTL]).max() / sc0))
    if abs(scl[qr.signal_TOTL] - 1.3 ** 4 * base[qr.signal_TOTL]).max() > 1e-9 * sc0:
        bad.append("coupled dimer: the response does not scale with the fourth power of a common dipole factor")
except Exception as e:      # noqa
    bad.append("whole-response part raised %s: %s" % (type(e).__name__, str(e)[:160]))

# ---- mock calculator: shape of one pathway = prefactor x line shape at the pathway frequencies (rephasing on the negated axis) ------
try:
    import quantarhei as qr
    from quantarhei.spectroscopy.mocktwodcalculator import MockTwoDResponseCalculator
    from quantarhei.spectroscopy.lineshapes import gaussian2D, lorentzian2D

    class _PW:
        pass
    t1 = qr.TimeAxis(0.0, 40, 5.0)
    t2 = qr.TimeAxis(0.0, 3, 10.0)
    t3 = qr.TimeAxis(0.0, 40, 5.0)
    mc = MockTwoDResponseCalculator(t1, t2, t3)
    with qr.energy_units("1/cm"):
        mc.bootstrap(rwa=12000.0)
    w0 = mc.oa1.data[len(mc.oa1.data) // 2 + 3]
    w1_ = mc.oa3.data[len(mc.oa3.data) // 2 - 2]
    for ptype in ("R", "NR"):
        for shape, fn, wkey in (("Gaussian", gaussian2D, "width"), ("Lorentzian", lorentzian2D, "deph")):
            pw = _PW()
            pw.order, pw.relax_order, pw.pathway_type = 3, 0, ptype
            pw.frequency = numpy.array([-w0 if ptype == "R" else w0, 0.0, w1_, 0.0])
            pw.pref = -0.7
            pw.widths = numpy.array([-1.0, -1.0, -1.0, -1.0, -1.0])
            pw.dephs = numpy.array([-1.0, -1.0, -1.0, -1.0, -1.0])
            got = mc.calculate_pathway(pw, shape=shape)
            x = -mc.oa1.data if ptype == "R" else mc.oa1.data
            want = pw.pref * fn(x, pw.frequency[0], getattr(mc, wkey + "x"), mc.oa3.data, pw.frequency[2], getattr(mc, wkey + "y"))
            if abs(got - want).max() > 1e-10 * max(1.0, abs(want).max()):
                bad.append("mock calculator: %s pathway with %s shape is not prefactor x line shape at the pathway frequencies "
                           "(max deviation %.3e)" % (ptype, shape, abs(got - want).max()))
            got2 = mc.calculate_pathway(None, shape=shape)
            if abs(got2).max() != 0.0:
                bad.append("mock calculator: empty pathway gives a non-zero response")
except Exception as e:      # noqa
    bad.append("mock calculator part raised %s: %s" % (type(e).__name__, str(e)[:120]))

for b in bad[:10]:
    print("VIOLATED:", b[:400])
print("C12 oracle: %d violations" % len(bad))
sys.exit(1 if bad else 0)
