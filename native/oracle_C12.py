"""Property-level native oracle for C12 (orientational prefactor): the closed form of the isotropic rank-four average is
checked against quadrature over Euler angles, and the prefactor computed by LabSetup.set_pulse_polarizations +
liouville_pathway.build + orientational_averaging is compared with it for random polarisation and dipole four-tuples,
common rotations and common scale factors."""
import sys
import types
import numpy
from quantarhei.spectroscopy.labsetup import LabSetup
from quantarhei.spectroscopy.diagramatics import liouville_pathway

bad = []
rng = numpy.random.default_rng(12)
M = numpy.array([[4.0, -1.0, -1.0], [-1.0, 4.0, -1.0], [-1.0, -1.0, 4.0]]) / 30.0


def pair(v):
    return numpy.array([numpy.dot(v[0], v[1]) * numpy.dot(v[2], v[3]), numpy.dot(v[0], v[2]) * numpy.dot(v[1], v[3]),
                        numpy.dot(v[0], v[3]) * numpy.dot(v[1], v[2])])


def closed_form(e, d):
    return pair(e) @ M @ pair(d)


def rot(axis, angle):
    axis = numpy.asarray(axis, float) / numpy.linalg.norm(axis)
    K = numpy.array([[0, -axis[2], axis[1]], [axis[2], 0, -axis[0]], [-axis[1], axis[0], 0]])
    return numpy.eye(3) + numpy.sin(angle) * K + (1 - numpy.cos(angle)) * K @ K


def quadrature(e, d, n=8):
    xb, wb = numpy.polynomial.legendre.leggauss(n)
    al = numpy.arange(n) * 2 * numpy.pi / n
    tot = 0.0
    for x, w in zip(xb, wb):
        Ry = rot([0, 1, 0], numpy.arccos(x))
        for a in al:
            for g in al:
                R = rot([0, 0, 1], a) @ Ry @ rot([0, 0, 1], g)
                tot += w * numpy.prod(numpy.sum(e * (d @ R.T), axis=1))
    return tot / (2.0 * n * n)


def prefactor(e, d, sides=(1, -1, 1, 1), rho=0.7, evf=0.3 - 0.2j):
    lab = LabSetup()
    lab.set_pulse_polarizations(pulse_polarizations=(e[0], e[1], e[2]), detection_polarization=e[3])
    agg = types.SimpleNamespace(rho0=numpy.array([[rho]]), HH=numpy.zeros((1, 1)))
    pw = liouville_pathway("R", 0, aggregate=agg, order=3, relax_order=0)
    pw.dmoments[:, :] = d
    pw.sides[:] = sides
    pw.evolfac = evf
    pw.build()
    pw.orientational_averaging(lab)
    return pw.pref / (numpy.prod(sides) * rho * evf)


for trial in range(40):
    e = rng.normal(size=(4, 3))
    d = rng.normal(size=(4, 3))
    if trial % 4 == 0:
        e = numpy.array([[1.0, 0, 0], [0, 1.0, 0], [1.0, 0, 0], [0, 1.0, 0]])       # XYXY
    if trial < 6 and abs(closed_form(e, d) - quadrature(e, d)) > 1e-10:
        bad.append("reference closed form disagrees with quadrature over orientations (oracle error)")
    try:
        p = prefactor(e, d)
    except Exception as ex:         # noqa
        bad.append("prefactor could not be computed: %s: %s" % (type(ex).__name__, ex))
        break
    want = closed_form(e, d)
    if abs(p - want) > 1e-10 * max(1.0, abs(want)):
        bad.append("prefactor %.6g differs from the isotropic average %.6g for e=%s d=%s" % (p.real, want, e.tolist(), d.tolist()))
    R = rot(rng.normal(size=3), rng.uniform(0, 6))
    if abs(prefactor(e, d @ R.T) - p) > 1e-10 * max(1.0, abs(p)):
        bad.append("prefactor changes under a common rotation of all dipoles")
    if abs(prefactor(e @ R.T, d) - p) > 1e-10 * max(1.0, abs(p)):
        bad.append("prefactor changes under a common rotation of all polarisations")
    if abs(prefactor(e, 1.7 * d) - 1.7 ** 4 * p) > 1e-9 * max(1.0, abs(p)):
        bad.append("prefactor does not scale with the fourth power of a common dipole factor")

# ---- mock calculator: shape of one pathway = prefactor x line shape at the pathway frequencies (rephasing on the negated axis) ------
try:
    import quantarhei as qr
    from quantarhei.spectroscopy.mocktwodcalculator import MockTwoDResponseCalculator
    from quantarhei.spectroscopy.lineshapes import gaussian2D, lorentzian2D

    class _PW:
        pass
    t1 = qr.TimeAxis(0.0, 40, 5.0)
    t2 = qr.TimeAxis(0.0, 3, 10.0)
    t3 = qr.TimeAxis(0.0, 40, 5.0)
    mc = MockTwoDResponseCalculator(t1, t2, t3)
    with qr.energy_units("1/cm"):
        mc.bootstrap(rwa=12000.0)
    w0 = mc.oa1.data[len(mc.oa1.data) // 2 + 3]
    w1_ = mc.oa3.data[len(mc.oa3.data) // 2 - 2]
    for ptype in ("R", "NR"):
        for shape, fn, wkey in (("Gaussian", gaussian2D, "width"), ("Lorentzian", lorentzian2D, "deph")):
            pw = _PW()
            pw.order, pw.relax_order, pw.pathway_type = 3, 0, ptype
            pw.frequency = numpy.array([-w0 if ptype == "R" else w0, 0.0, w1_, 0.0])
            pw.pref = -0.7
            pw.widths = numpy.array([-1.0, -1.0, -1.0, -1.0, -1.0])
            pw.dephs = numpy.array([-1.0, -1.0, -1.0, -1.0, -1.0])
            got = mc.calculate_pathway(pw, shape=shape)
            x = -mc.oa1.data if ptype == "R" else mc.oa1.data
            want = pw.pref * fn(x, pw.frequency[0], getattr(mc, wkey + "x"), mc.oa3.data, pw.frequency[2], getattr(mc, wkey + "y"))
            if abs(got - want).max() > 1e-10 * max(1.0, abs(want).max()):
                bad.append("mock calculator: %s pathway with %s shape is not prefactor x line shape at the pathway frequencies "
                           "(max deviation %.3e)" % (ptype, shape, abs(got - want).max()))
            got2 = mc.calculate_pathway(None, shape=shape)
            if abs(got2).max() != 0.0:
                bad.append("mock calculator: empty pathway gives a non-zero response")
except Exception as e:      # noqa
    bad.append("mock calculator part raised %s: %s" % (type(e).__name__, str(e)[:120]))

for b in bad[:10]:
    print("VIOLATED:", b[:400])
print("C12 oracle: %d violations" % len(bad))
sys.exit(1 if bad else 0)
